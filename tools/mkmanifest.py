#!/venv/bin/python
"""Regenerates /verif/MANIFEST.json from the property modules that exist (vt/props/cNN.py) and validates it."""
import importlib
import json
import os
import sys

VERIF = os.path.dirname(os.path.dirname(os.path.abspath(__file__)))
sys.path.insert(0, VERIF)
sys.path.insert(0, '/repo/src')

props = [json.loads(l) for l in open(os.path.join(VERIF, 'properties.jsonl'))]
checks, na = [], []
for p in props:
    pid = p['id']
    path = os.path.join(VERIF, 'vt', 'props', pid.lower() + '.py')
    ready = set(open(os.path.join(VERIF, 'vt', 'props', 'READY')).read().split())
    if not os.path.exists(path) or pid not in ready:
        na.append({'property_id': pid, 'reason': 'check not built yet in this round (planned, see DESIGN.md section 4); '
                                                 'the technique applies'})
        continue
    mod = importlib.import_module('vt.props.' + pid.lower())
    if getattr(mod, 'NOT_CLAIMED', None):
        na.append({'property_id': pid, 'reason': mod.NOT_CLAIMED})
        continue
    checks.append({
        'property_id': pid,
        'quick_cmd': './check %s --tier quick' % pid,
        'thorough_cmd': './check %s --tier thorough' % pid,
        'evidence_file': 'evidence/%s.json' % pid,
        'replay_cmd_template': './check %s --replay {path}' % pid,
        'engine': getattr(mod, 'ENGINE', 'hypothesis'),
        'level_claimed': {'category': getattr(mod, 'LEVEL', 'exploration'),
                          'text': getattr(mod, 'LEVEL_TEXT', 'generated cases checked against an explicit oracle; '
                                                             'counts and samples in the evidence file'),
                          'design_ref': 'DESIGN.md section 4, ' + pid},
        'level_note': getattr(mod, 'LEVEL_NOTE', '; '.join(getattr(mod, 'ASSUMPTIONS', [])) or 'reference model is trusted'),
        'technique': getattr(mod, 'TECHNIQUE', 'property-based testing (Hypothesis) against a reference model'),
    })
manifest = {
    'version': 1,
    'setup_cmd': './setup.sh',
    'hooks': {'guard': 'PAULROSS_TOTALDEPTH_VERIF', 'enable': 'no hooks are needed: every observation point is public API '
              '(file objects passed to the readers are instrumented by the harness)',
              'baseline_off_cmd': 'cd /repo && /venv/bin/python -m pytest -ra -q -p no:cacheprovider --timeout=900 '
                                  '--continue-on-collection-errors',
              'source_commits': [], 'add_only': True},
    'engines': [{'name': 'hypothesis', 'path': 'vt/engine.py', 'serves_properties': [c['property_id'] for c in checks],
                 'kind_free_text': 'Hypothesis 6.168 strategies and rule based state machines, driven by a '
                                   'collect-then-shrink engine; bounded exhaustive enumeration of small finite domains'},
                {'name': 'atheris', 'path': 'vt/fuzz/c20_atheris.py', 'serves_properties': ['C20'],
                 'kind_free_text': 'coverage guided fuzzing (atheris 3.1 / libFuzzer) of binary_file_type, thorough tier of C20: '
                                   'deviations are saved and replayed through the C20 oracle'}],
    'checks': checks,
    'not_applicable': na,
    'notes': 'Single entry point ./check Cxx [--tier quick|thorough] [--replay file]; VERIF_SEED seeds every generator. '
             'known_findings.json lists recorded defects; replays/ holds regression inputs.',
}
if not na:
    del manifest['not_applicable']
out = os.path.join(VERIF, 'MANIFEST.json')
with open(out, 'w') as f:
    json.dump(manifest, f, indent=1)
    f.write('\n')
try:
    sys.path.append(os.path.join(VERIF, '.deps'))
    import jsonschema
    jsonschema.validate(manifest, json.load(open('/root/.vp/MANIFEST.schema.json')))
    print('MANIFEST.json valid: %d checks, %d not claimed' % (len(checks), len(na)))
except ImportError:
    print('MANIFEST.json written (jsonschema not available to validate)')
